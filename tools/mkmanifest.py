#!/usr/bin/env python3
"""Regenerate /verif/MANIFEST.json from the table below (one source of truth for registered checks)."""
import json
import subprocess

ROOT = "/verif"
props = [json.loads(l) for l in open(ROOT + "/properties.jsonl")]

CORE_NOTE = ("Trusted: the kernel's epoll/eventfd semantics, the harness' instrumented sources (user-level EventSource "
             "implementations wrapping the real ones), wall-clock timestamps used as bounds only (a timer is 'due' when its "
             "deadline precedes the timestamp taken before the poll, 'early' when it follows the one taken after it). "
             "TLC is exhaustive for the constants in spec/mc/*.cfg only; executed scenarios are a sample of the history space.")

# property -> (technique, level text, design_ref, note)
CLAIMED = {
    "C01": ("TLA+ contract monitor (LoopContract) checked by TLC on LoopCore's bounded state space and on traces of the real crate (TLC trace validation); scenarios from TLC behaviours + seeded generator",
            "Bounded model checking of the slot/generation/sub-token design plus trace validation of real executions: every callback invocation of every recorded execution is attributed to a live registration and a real cause by the TLA+ monitor.", "4/C01", CORE_NOTE),
    "C02": ("TLA+ contract monitor: pending-cause set sampled at the wait, checked at the end of each Ok dispatch, by TLC on LoopCore and on real traces; plus generated channel schedules of real threads under the step scheduler (a message queued by a blocked sender is a pending cause); free-running send / ping / wake races (drive_hammer) judged by ChanHammerTrace",
            "Model checking + trace validation: the set of sources with a pending cause when the wait starts is computed by the monitor from the driver's own actions and compared with the callbacks of that dispatch.", "4/C02", CORE_NOTE),
    "C05": ("TLA+ contract monitor for timer armings (never early / order / once per arming / cancel final / heap residue) on LoopCore and on real traces",
            "Model checking + trace validation with integer microsecond time; arming identities are ghost state of the monitor.", "4/C05", CORE_NOTE),
    "C06": ("TLA+ contract monitor: token liveness, drop counters, slot occupancy, nothing left behind by a removed source; TLC on LoopCore and on real traces; supplement: inductive invariant of the slot/generation rule at 16-bit width discharged by Apalache (SlotListApalache.tla)",
            "Model checking + trace validation: every token ever issued is tracked by the monitor; drops are observed through Drop impls of the instrumented sources and callbacks.", "4/C06", CORE_NOTE),
    "C07": ("TLA+ contract monitor: enabled flag per source, isolation of disable/enable, retention via the C02 clauses; TLC on LoopCore and real traces",
            "Model checking + trace validation.", "4/C07", CORE_NOTE),
    "C08": ("TLA+ model with explicit RefCell borrow flags (LoopCore) + monitor clause 'no undocumented panic' on real traces with callback programs enumerated by TLC / generator",
            "Model checking of the borrow discipline + trace validation of callback programs executed under catch_unwind.", "4/C08", CORE_NOTE),
    "C09": ("TLA+ contract monitor: effective post action vs. the action the loop applies and the (un/re)registration calls it makes; TLC on LoopCore and real traces",
            "Model checking + trace validation; the PostAction | table is enumerated completely.", "4/C09", CORE_NOTE),
    "C13": ("TLA+ contract monitor for idle callbacks; TLC on LoopCore and real traces", "Model checking + trace validation.", "4/C13", CORE_NOTE),
    "C14": ("TLA+ contract monitor for before_sleep/before_handle_events counts, order, iterator contents and the lifecycle set; TLC on LoopCore and real traces (fault sequences injected)",
            "Model checking + trace validation with injected registration faults.", "4/C14", CORE_NOTE),
    "C15": ("fault-sequence enumeration in LoopCore (TLC) + monitor clauses (state unchanged after failed insert, no panic, no lost event) on real traces with injected and real (EBADF/EEXIST/EPERM) failures",
            "Model checking + trace validation over fault sequences.", "4/C15", CORE_NOTE),
    "C16": ("TLA+ contract monitor comparing the kernel's epoll table (/proc/self/fdinfo) with the registrations the specification expects, at every top-level step; TLC on LoopCore and real traces",
            "Model checking + trace validation against an oracle that is independent of calloop's bookkeeping (the kernel).", "4/C16", CORE_NOTE),
}

CONC_NOTE = ("Trusted: eventfd / epoll / std::sync::mpsc / async-task / polling::Poller::notify behave as their contracts say; "
             "the step scheduler serialises real OS threads at the yield points compiled in with cfg(calloop_verif) (every eventfd "
             "write/read, queue push/pop, flag swap) so interleavings *inside* one such step and weak-memory effects are out of reach. "
             "TLC is exhaustive for the scripts of spec/mc/*.cfg; replayed schedules are a sample beyond them.")
CLAIMED.update({
    "C03": ("TLA+ protocol model PingProto (one action per yield-to-yield step of a thread) model-checked by TLC; its schedules replayed on real threads by the step scheduler and compared event-for-event; all recorded traces validated by TLC against ConcContract; sequential histories through LoopContract; free-running ping race (drive_hammer) judged by ChanHammerTrace",
            "Model checking of every interleaving of the ping protocol for the configured scripts + schedule replay on real eventfds + trace validation.", "4/C03", CONC_NOTE),
    "C04": ("TLA+ protocol model ChanProto (mpsc queue, ping, drop order; variants as TLC attack schedules) and the channel kind of LoopCore (bounded batch with self re-ping) model-checked by TLC; their schedules / behaviours replayed on the real crate; contract ConcContract (order / exactly-once / single Closed / no stranded message / blocking send completes) validated by TLC on traces of real threads under the step scheduler, including free-running bursts in which a sender really blocks on a full channel while the loop dispatches at full speed, and a free-running race driver (drive_hammer: 10^5 rounds, after send() has returned one more dispatch must deliver; judged by ChanHammerTrace); sequential histories (also beyond the real limit of 1024 per dispatch) through LoopContract",
            "Model checking of the channel protocol for the configured scripts + schedule replay + trace validation of scheduled executions of channel() and sync_channel(0,1,2) with batch limits 1..3 and at the real limit.", "4/C04", CONC_NOTE),
    "C10": ("TLA+ protocol model ExecProto (enqueue / notified swap / eventfd write / flag clear / dequeue steps) model-checked by TLC, its schedules and the TLC attack schedule of the wrong variant replayed on real waker threads under the step scheduler; executor and StreamSource kinds of LoopCore (run queue, notified flag, batch limit with self re-ping, futures dropped with the executor; stream polled until Pending) model-checked and their behaviours replayed event for event; all traces validated by TLC against ConcContract / LoopContract; free-running wake race (drive_hammer) judged by ChanHammerTrace",
            "Model checking of the wake protocol for the configured scripts and of executor/stream histories (schedule, wake, complete, disable, enable, remove, re-insert, scheduling from callbacks and futures, batch limits 1..3 through the hook) + schedule replay + trace validation.", "4/C10", CONC_NOTE),
    "C11": ("TLA+ protocol model SignalProto (stop flag, sticky notification, run() / block_on() steps; wrong variants swap_after_poll, notify_before_store, wakeup_coalesced, poll_before_stop) model-checked by TLC; all schedules of the small scripts and the TLC counterexample schedules of the variants replayed on real threads with real epoll waits; contract ConcContract (run() returns after stop+wakeup within one iteration, never without stop; block_on result (Some only when the future completed, no poll after a stop that was requested first), several block_on per loop, block_on(TimeoutFuture), an armed timer bounding the wait) validated by TLC on the recorded traces",
            "Trace validation by TLC of scheduled executions of run()/block_on() with real epoll waits; a wait that does not return within the watchdog is recorded as stuck.", "4/C11", CONC_NOTE),
    "C18": ("TLA+ transcription of transient.rs (Transient.tla) model-checked exhaustively by TLC; an edge cover of the reachable graph (every state x call) is replayed on the real TransientSource inside a real loop and the recorded calls are validated by TLC against the same operators",
            "Exhaustive model checking of the wrapper state machine + one real execution per model transition (MongoDB-style), kernel epoll table as second oracle.", "4/C18",
            "Trusted: the instrumented child sources (wrapping real Generic / Timer), /proc fdinfo. Protocol scope as documented in transient.rs (see spec/TRANSIENT_FINDINGS.md)."),
    "C19": ("Implementation-shaped TLA+ model of Signals (each new/add/remove/set/drop is its sequence of sigprocmask/signalfd calls, one per transition; pending queues with coalescing; normal disposition = counting handler) checked exhaustively by TLC; all behaviours of the small configuration plus seeded samples are replayed on the real Signals source in a single-threaded process and the recorded kernel observations are validated by TLC against the same operators",
            "Exhaustive TLC model checking of mask bookkeeping and delivery for all sequences of <=5 operations over subsets of 3 signals; every 4-operation behaviour over 2 signals is executed on the real crate and must agree with the model on blocked set, signalfd mask, pending sets, callbacks and handler counts after every call.", "4/C19",
            "Trusted: Linux signal semantics as modelled (standard signals coalesce per queue; unblocking delivers pending instances before sigprocmask returns; signalfd reads dequeue regardless of the blocked set), /proc/self/status and fdinfo as observers, counting handlers standing for the normal disposition. Out of scope: other threads, a second Signals source, syscall failures, real-time signals."),
})

CLAIMED["C20"] = ("TLA+ specification of the key codec and TokenFactory (Token.tla) checked exhaustively by TLC at reduced bit widths with six wrong-behaviour variants; real pack/unpack/next_version/TokenFactory driven by drive_token, every logged record validated by TLC against the limb form of the same spec at IB=32, VB=SB=16 (TokenTrace.tla); supplementary Apalache (SMT) check of the same statements at the real widths",
    "Exhaustive TLC model checking of the parametric pack/unpack/generation/sub-id arithmetic and the factory machine for all triples of widths <= 4/4/4 (and the limb layout), plus TLC trace validation of ~1.5 million (quick) / 6.5 million (thorough) evaluations of the real code: full boundary cross product, all 2^16 generations and all 2^16 sub-ids for several slot ids, a seeded sample, and factories asked for every n in 1..65540 (thorough).", "4/C20",
    "The real 2^64 domain is not enumerated by TLC: it is bound by (1) limb-form agreement checked exhaustively at small limb widths, (2) validation of the real code on boundary values, full 16-bit sweeps and samples, (3) an Apalache/SMT supplement for all 2^64 keys (not the checker of record). Trusted: the driver's limb decomposition; polling's reserved key = usize::MAX. The 32/16-bit layouts of token.rs are not compiled here. A TLAPS proof was attempted and dropped (nonlinear div/mod obligation).")

CLAIMED["C12"] = ("TLA+ specification of dispatch()'s wait: a declarative oracle (effective wait W = Min of timeout, earliest armed deadline, pending one-off event, external wake-up, with None = infinity; time spent in before_sleep hooks moves the timeout but not the timer deadlines; timers that must fire; one-off events and self-removals; a second dispatch must block again) and a code-shaped model of dispatch_events / Poll::poll / the timer pop / process_events; TLC checks exhaustively that the two agree for every enumerated configuration and flags 10 seeded mistakes; every replayable configuration is executed on the real EventLoop with real sources and timers, wall-clock durations are recorded and judged by TLC against the oracle",
    "TLC proves code-shaped wait = oracle for 2640 configurations (thorough: 229,376); the configurations that return are each measured on the real crate (quick: a 441-configuration representative subset; thorough: all, at two time scales) and must satisfy elapsed >= W - 1 ms, elapsed <= W + 150 ms (+20 ms when the machine is quiet and it repeats), limiting timer fired, none early, one-off events delivered once, sources removed, second dispatch blocks again.", "4/C12",
    "The verdict on the real code is wall-clock measurement (std::time::Instant); TLA+ supplies the configuration space and the expected values, not the clock. Upper-bound clauses count only if reproduced in every one of 4 (Slack) or 6 (Tight) serial measurements; deviations under 150 ms (20 ms on a quiet machine) are not observable; `>` vs `>=` in the timer pop is only distinguishable in the model. Trusted: Linux timerfd and epoll never fire early, the monotonic clock, polling's EINTR loop as modelled.")

CLAIMED["C17"] = ("TLA+ model of io.rs (AsyncIo.tla: socket FIFOs with capacity B and EPOLLOUT low-water mark, one-shot epoll table, the adapter's interest / per-direction wakers / last_readiness, executor, tasks with all chunkings chosen on the fly) model-checked exhaustively by TLC; ALL guided behaviours of a small configuration plus seeded TLC simulations and generated long scenarios are replayed on the real Async over a UnixStream pair scaled so that the real capacity is exactly B = 2 blocks, and TLC validates every recorded step against the same operators (epoll entry from /proc fdinfo, O_NONBLOCK, occupied slots, wakers woken, bytes and digests)",
    "Exhaustive model checking of bounded configurations (strings <= 4-5 bytes over 2 symbols, chunks 1..3, B in {2,3}, <= 5 ops per task, peer acting mid-dispatch, lifecycle up to 3 adapt_io per fd and a regular file) plus liveness under weak fairness on small bounds; conformance: replayed model behaviours reproduced event-for-event including kernel results.", "9/C17",
    "Trusted: the kernel facts measured at start (block = SO_SNDBUF/2-64, capacity 2 blocks, POLLOUT low-water 0; differences reported as Env_*, never as violations), /proc fdinfo, the waker wrapper of the driver. B = 3 configurations are model-checked only. Two futures pending on one adapter (topologies split / join) are part of the checked configurations since the fix 0061559.")

checks = []
for pid, (tech, text, ref, note) in CLAIMED.items():
    checks.append({
        "property_id": pid,
        "quick_cmd": "./check %s quick" % pid,
        "thorough_cmd": "./check %s thorough" % pid,
        "evidence_file": "/verif/evidence/%s.json" % pid,
        "replay_cmd_template": "./check %s quick --replay {path}" % pid,
        "engine": "tlc+harness",
        "level_claimed": {"category": "model_checking", "text": text, "design_ref": "DESIGN.md section " + ref},
        "level_note": note,
        "technique": tech,
    })

hooks = subprocess.run(["git", "-C", "/repo", "log", "--format=%h %s"], capture_output=True, text=True).stdout.splitlines()
hook_commits = [l.split()[0] for l in hooks if "verif hooks" in l]

m = {
    "version": 1,
    "setup_cmd": "./check setup",
    "hooks": {
        "guard": "calloop_verif",
        "enable": "rustflags = [\"--cfg\", \"calloop_verif\"] in /verif/harness/.cargo/config.toml (the harness has a path dependency on /repo and is rebuilt by every check)",
        "baseline_off_cmd": "cd /repo && cargo test --workspace --no-fail-fast --offline",
        "source_commits": hook_commits,
        "add_only": True,
    },
    "engines": [
        {"name": "tlc+harness", "path": "/verif/tools/check.py",
         "serves_properties": sorted(CLAIMED),
         "kind_free_text": "TLA+ specifications (spec/*.tla) model-checked by TLC; Rust conformance harness (harness/) drives the real crate "
                           "built with --cfg calloop_verif and records NDJSON traces that TLC validates against the contract monitors"},
    ],
    "checks": checks,
    "notes": "Every check prints KNOWN-FINDING lines for open entries of known_findings.json that it reproduces and exits 0 for them.",
    "not_applicable": [{"property_id": p["id"], "reason": "not claimed"}
                       for p in props if p["id"] not in CLAIMED],
}
json.dump(m, open(ROOT + "/MANIFEST.json", "w"), indent=1)
print("manifest:", len(checks), "checks,", len(m["not_applicable"]), "not yet claimed")
