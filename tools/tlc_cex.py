#!/usr/bin/env python3
"""tlc_cex.py: summarise a TLC counterexample (stdin = TLC output): per state print the action name and the
monitor's violation set / selected variables"""
import re, sys
txt = sys.stdin.read()
states = re.split(r"\nState (\d+): ", txt)
pick = sys.argv[1:] or ["pc", "slots", "issued", "pending"]
for i in range(1, len(states), 2):
    n = states[i]; body = states[i+1]
    head = body.split("\n", 1)[0]
    out = [n, head[:80]]
    for v in pick:
        m = re.search(r"/\\ %s = (.*?)(?=\n/\\ |\Z)" % v, body, re.S)
        if m:
            out.append("%s=%s" % (v, re.sub(r"\s+", " ", m.group(1))[:300]))
    print(" | ".join(out))
m = re.search(r"viol \|-> (\{.*?\})", txt, re.S)
