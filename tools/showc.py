#!/usr/bin/env python3
import json, sys
tr, sid = sys.argv[1], sys.argv[2]
on = False
for i, line in enumerate(open(tr), 1):
    ev = json.loads(line)
    if ev["e"] == "reset":
        on = ev["id"] == sid
    if not on: continue
    if ev["e"] == "g": continue
    e = ev.pop("e")
    print(i, e, " ".join("%s=%s" % (k, json.dumps(v, separators=(",", ":"))) for k, v in ev.items()))
