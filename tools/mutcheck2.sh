#!/bin/bash
# usage: mutcheck2.sh <patch.diff> <prop> [tier]  -- like mutcheck.sh, but on scratch copies of /repo and /verif
# (/tmp/mrepo, /tmp/mverif), so that it can run while other checks use /repo.  Prints the VIOLATION / [check] lines.
set -u
patch=$1; prop=$2; tier=${3:-quick}
rsync -a --delete --exclude target /repo/ /tmp/mrepo/ || exit 2
git -C /tmp/mrepo checkout -q -- . || exit 2
git -C /tmp/mrepo apply "$patch" || { echo "cannot apply"; exit 2; }
rsync -a --delete --exclude work --exclude replays --exclude evidence --exclude .git /verif/ /tmp/mverif/ || exit 2
mkdir -p /tmp/mverif/evidence
sed -i 's|path = "/repo"|path = "/tmp/mrepo"|' /tmp/mverif/harness/Cargo.toml
(cd /tmp/mverif && ./check $prop $tier 2>&1 | grep -E "^VIOLATION|^\[check\]|Traceback|ToolError|error" | grep -v KNOWN | head -${MUT_LINES:-4})
